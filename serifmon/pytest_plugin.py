"""Calibration aid (DESIGN 2.8 step 2): run the repository's own tests with the universal invariants switched on.

    cd /repo && PYTHONPATH=/verif /venv/bin/python -m pytest -q -p no:cacheprovider -p serifmon.pytest_plugin

After every test the census of vectors created during it is swept: rectangularity of every live Table (C02), truthfulness
of every live library-built vector (C03), fingerprint freshness (C16) and repr totality (C20).  A firing invariant is either
an over-strict monitor or a defect the suite does not assert; findings are written to $SERIFMON_PLUGIN_LOG (default
/tmp/serifmon-plugin.log) and summarised at the end; they do not fail the tests."""
import json
import os

_findings = {}
_counts = {"tests": 0, "vectors": 0, "tables": 0}


def pytest_configure(config):
	from serifmon.props import pool
	pool.CENSUS.install()
	pool.CENSUS.hold = []


def pytest_runtest_teardown(item, nextitem):
	from serifmon.props import pool
	from serifmon import models as M
	from serifmon.bind import Table, Vector, Row
	from serifmon.core import call
	_counts["tests"] += 1
	held, pool.CENSUS.hold = pool.CENSUS.hold, []
	for o in held:
		if isinstance(o, Row):
			continue
		try:
			if isinstance(o, Table):
				_counts["tables"] += 1
				if "_underlying" not in o.__dict__ or o.__dict__.get("_column_map") is None:
					continue
				msg = call(pool.rect_violation, o)
				if msg.ok and msg.value:
					_note("C02 rect/" + msg.value[0], item.nodeid, msg.value[1])
			else:
				_counts["vectors"] += 1
				if "_underlying" not in o.__dict__:
					continue
				vals = list(o._underlying)
				if any(isinstance(x, Vector) for x in vals):
					continue
				m = M.truthful(vals, o.schema())
				if m:
					_note("C03 truth", item.nodeid, m)
			fp = call(o.fingerprint)
			rb = call(lambda: pool.rebuild(o).fingerprint())
			if fp.ok and rb.ok and fp.value != rb.value:
				_note("C16 fingerprint/stale", item.nodeid, f"{type(o).__name__} {fp.value} vs rebuilt {rb.value}")
			r = call(repr, o)
			if not r.ok:
				_note("C20 repr/raises/" + type(r.exc).__name__, item.nodeid, str(r.exc)[:200])
		except Exception as exc:
			_note("plugin-error/" + type(exc).__name__, item.nodeid, str(exc)[:200])
	pool.CENSUS.refs = []
	pool.CENSUS.hold = []


def _note(kind, test, msg):
	rec = _findings.setdefault(kind, {"count": 0, "examples": []})
	rec["count"] += 1
	if len(rec["examples"]) < 5:
		rec["examples"].append({"test": test, "message": msg})


def pytest_sessionfinish(session, exitstatus):
	path = os.environ.get("SERIFMON_PLUGIN_LOG", "/tmp/serifmon-plugin.log")
	json.dump({"counts": _counts, "findings": _findings}, open(path, "w"), indent=1)
	print(f"\n[serifmon plugin] tests={_counts['tests']} vectors swept={_counts['vectors']} tables swept={_counts['tables']} finding kinds={len(_findings)} -> {path}")
	for k, v in _findings.items():
		print(f"[serifmon plugin] {k}: {v['count']} e.g. {v['examples'][0]}")
