"""Value universe and column generators (independent of serif)."""
import enum
from datetime import date, datetime, timedelta
from decimal import Decimal
from fractions import Fraction


class Plain:
	"""An arbitrary user class (hashable, orderable by payload)."""
	def __init__(self, x):
		self.x = x

	def __eq__(self, other):
		return isinstance(other, Plain) and self.x == other.x

	def __hash__(self):
		return hash(("Plain", self.x))

	def __lt__(self, other):
		return self.x < other.x

	def __repr__(self):
		return f"Plain({self.x!r})"


class Other:
	def __init__(self, x):
		self.x = x

	def __eq__(self, other):
		return isinstance(other, Other) and self.x == other.x

	def __hash__(self):
		return hash(("Other", self.x))

	def __repr__(self):
		return f"Other({self.x!r})"


class Base:
	"""user class with a subclass: Base() and Sub() are different kinds"""
	def __init__(self, x=0):
		self.x = x

	def __eq__(self, other):
		return type(other) is type(self) and self.x == other.x

	def __hash__(self):
		return hash((type(self).__name__, self.x))

	def __repr__(self):
		return f"{type(self).__name__}({self.x!r})"


class Sub(Base):
	pass


class DecSub(Decimal):
	def __repr__(self):
		return f"DecSub({Decimal.__str__(self)!r})"


class EqAll:
	"""compares equal to everything (like unittest.mock.ANY) - still not None"""
	def __eq__(self, other):
		return True
	def __ne__(self, other):
		return False
	def __hash__(self):
		return 7
	def __repr__(self):
		return "EqAll()"


class Stamp(datetime):
	"""a datetime subclass (a time of day travels with it)"""


class Day(date):
	"""a date subclass"""


class MyInt(int):
	def __repr__(self):
		return f"MyInt({int(self)})"


class MyStr(str):
	def __repr__(self):
		return f"MyStr({str.__repr__(self)})"


class Color(enum.IntEnum):
	RED = 1
	BLUE = 2


D0 = date(2020, 1, 31)
DT0 = datetime(2020, 1, 31, 12, 30)

# samples per exact kind; small domains with duplicates so ties/equal keys occur
SAMPLES = {
	"bool": [True, False, True],
	"int": [0, 1, -1, 2, 3, -3, 7, 2**70, -(2**61 - 1)],
	"float": [0.0, 0.5, -0.5, 1.0, 2.5, -2.5, 1e300, -0.0, 3.0],
	"complex": [1j, 1 + 2j, -0.5j, complex(2, 0)],
	"str": ["a", "b", "", "abc", "Abc", " x ", "10", "é", "..."],
	"bytes": [b"a", b"", b"xyz"],
	"date": [D0, date(2021, 2, 28), date(1999, 12, 31), date(2020, 3, 1)],
	"datetime": [DT0, datetime(2021, 2, 28, 0, 0), datetime(1999, 12, 31, 23, 59, 59)],
	"list": [[1], [], [1, "a"]],
	"tuple": [(1,), (), (1, 2)],
	"dict": [{"a": 1}, {}],
	"Decimal": [Decimal("1.5"), Decimal("0"), Decimal("-2")],
	"timedelta": [timedelta(days=1), timedelta(0), timedelta(hours=5)],
	"Plain": [Plain(1), Plain(2), Plain(1)],
	"Other": [Other(1)],
	"Fraction": [Fraction(1, 2), Fraction(3)],
}
SMALL_INTS = [0, 1, -1, 2, 3, -3, 7]
SMALL_FLOATS = [0.0, 0.5, -0.5, 1.0, 2.5, -2.5, 3.0]

NUMERIC = ("bool", "int", "float", "complex")
TEMPORAL = ("date", "datetime")
BASIC_KINDS = ("bool", "int", "float", "complex", "str", "bytes", "date", "datetime")

PYTYPE = {
	"bool": bool, "int": int, "float": float, "complex": complex, "str": str, "bytes": bytes,
	"date": date, "datetime": datetime, "list": list, "tuple": tuple, "dict": dict,
	"Decimal": Decimal, "timedelta": timedelta, "Plain": Plain, "Other": Other, "Fraction": Fraction,
}


def pick(rng, kind, small=False):
	if small and kind == "int":
		return rng.choice(SMALL_INTS)
	if small and kind == "float":
		return rng.choice(SMALL_FLOATS)
	return rng.choice(SAMPLES[kind])


def column(rng, kind, n, none="none", small=False):
	"""list of n values of exact kind with a None pattern:
	none in {'none','low','high','all','first','last'}"""
	vals = [pick(rng, kind, small) for _ in range(n)]
	if n == 0:
		return vals
	if none == "all":
		return [None] * n
	if none == "first":
		vals[0] = None
	elif none == "last":
		vals[-1] = None
	elif none == "low":
		vals[rng.randrange(n)] = None
	elif none == "high":
		for i in range(n):
			if rng.random() < 0.6:
				vals[i] = None
	return vals


def none_pattern(rng):
	return rng.choice(["none", "none", "low", "high", "first", "last", "all"])


class Sym:
	"""a symbolic operand: every arithmetic operation records its operands in the order Python evaluated them
	(Sym('x') * 3 -> '(x*3)', 3 * Sym('x') -> '(3*x)'), so an operation applied with its operands exchanged is visible in the value"""
	def __init__(self, text):
		self.text = str(text)

	def __eq__(self, other):
		return isinstance(other, Sym) and other.text == self.text

	def __hash__(self):
		return hash(self.text)

	def __repr__(self):
		return f"Sym({self.text})"

	@staticmethod
	def _t(x):
		return x.text if isinstance(x, Sym) else repr(x)


def _sym_ops():
	for name, sym in (("add", "+"), ("sub", "-"), ("mul", "*"), ("truediv", "/"), ("floordiv", "//"), ("mod", "%"), ("pow", "**")):
		def fwd(self, other, sym=sym):
			if not isinstance(other, (Sym, int, float)):
				return NotImplemented
			return Sym(f"({Sym._t(self)}{sym}{Sym._t(other)})")
		def rev(self, other, sym=sym):
			if not isinstance(other, (Sym, int, float)):
				return NotImplemented
			return Sym(f"({Sym._t(other)}{sym}{Sym._t(self)})")
		setattr(Sym, f"__{name}__", fwd)
		setattr(Sym, f"__r{name}__", rev)
	Sym.__neg__ = lambda self: Sym(f"(-{self.text})")
	Sym.__pos__ = lambda self: Sym(f"(+{self.text})")
	Sym.__abs__ = lambda self: Sym(f"abs({self.text})")


_sym_ops()


class OrdOnly:
	"""a value ordered by __lt__ alone (all list.sort needs): two instances of one rank TIE - neither is smaller - although they are different
	objects, unequal and hashed apart (identity == / hash)"""
	def __init__(self, rank, tag=""):
		self.rank, self.tag = rank, tag

	def __lt__(self, other):
		return self.rank < other.rank

	def __repr__(self):
		return f"OrdOnly({self.rank}{self.tag})"
