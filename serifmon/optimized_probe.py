"""Run under `python -O` (asserts compiled away): refusals that rest on an `assert` alone disappear here.
usage: python -O optimized_probe.py <repo src>  -> one JSON line {"debug": bool, "outcomes": {label: "raises:<type>" | "returned:<summary>"}}"""
import json
import sys
import warnings

sys.dont_write_bytecode = True
sys.path.insert(0, sys.argv[1])
warnings.simplefilter("ignore")
from serif import Table, Vector  # noqa: E402


def outcome(f):
	try:
		r = f()
	except BaseException as exc:      # noqa: BLE001
		return "raises:" + type(exc).__name__
	if isinstance(r, Table):
		return "returned:table " + repr([list(c) for c in r.cols()])
	if isinstance(r, Vector):
		return "returned:vector " + repr(list(r))
	return "returned:" + repr(r)


t = Table({"a": [1, 2, 3], "b": [4, 5, 6]})
v = Vector([1, 2, 3])
out = {
	"table[short list mask]": outcome(lambda: t[[True, False]]),
	"table[long list mask]": outcome(lambda: t[[True, False, True, True]]),
	"table[short vector mask]": outcome(lambda: t[Vector([True, False])]),
	"table[long vector mask]": outcome(lambda: t[Vector([True, False, True, True, False])]),
	"vector[short list mask]": outcome(lambda: v[[True, False]]),
	"vector[long vector mask]": outcome(lambda: v[Vector([True, False, True, True])]),
	"table[right mask]": outcome(lambda: t[[True, False, True]]),
	"table rows mask write short": outcome(lambda: (t.__setitem__(([True, False], "a"), 0), [list(c) for c in t.cols()])[1]),
	"vector mask write long": outcome(lambda: (v.__setitem__([True, False, True, True], 0), list(v))[1]),
	"table + shorter list": outcome(lambda: t + [1, 2]),
	"vector + longer vector": outcome(lambda: v + Vector([1, 2, 3, 4])),
	"table >> shorter vector is a table": outcome(lambda: isinstance(t >> Vector([1, 2]), Table)),
	"Table of unequal columns": outcome(lambda: Table({"a": [1, 2], "b": [1]})),
	"table[5]": outcome(lambda: list(t[5])),
}
print(json.dumps({"debug": __debug__, "outcomes": out}))
