"""Worker process: python -m serifmon.worker <pid> <tier> <seed> <part> <nparts> <outfile>
(or: python -m serifmon.worker --replay <replayfile> <outfile>)"""
import base64
import importlib
import json
import pickle
import sys
import traceback


def main(argv):
	from . import bind
	from . import core
	replay = None
	if argv[0] == "--replay":
		replay = json.load(open(argv[1]))
		out = argv[2]
		pid, tier, seed, part, nparts = replay["property"], "quick", int(replay.get("seed", 0)), 0, 1
	else:
		pid, tier, seed, part, nparts, out = argv[0], argv[1], int(argv[2]), int(argv[3]), int(argv[4]), argv[5]
	res = {"pid": pid, "status": "ok"}
	if bind.BIND_ERROR:
		res = {"pid": pid, "status": "inconclusive", "reason": "bind: " + bind.BIND_ERROR}
		json.dump(res, open(out, "w"))
		return 0
	try:
		mod = importlib.import_module(f"serifmon.props.{pid.lower()}")
		core.install_alarm()
		chk = core.Check(pid, tier, seed, part, nparts, runners=mod.RUNNERS)
		if hasattr(mod, "setup"):
			mod.setup(chk)
		chk.start_coverage()
		if replay is not None:
			runner, spec = pickle.loads(base64.b64decode(replay["spec_pickle_b64"]))
			chk.case(runner, spec, stratum="replay")
		else:
			mod.run(chk)
		pool = sys.modules.get("serifmon.props.pool")
		if pool is not None and pool.CENSUS.installed:
			# hook activation counts (evidence that the run-time hooks were live)
			chk.counters["hook:Vector.__init__(census)"] = pool.CENSUS.created
			for k, v in pool.TRACKER_EVENTS.items():
				chk.counters["hook:_AliasTracker." + k] = v
		res.update(chk.result())
		if hasattr(mod, "REQUIRED_STRATA"):
			res["required_strata"] = mod.REQUIRED_STRATA(chk) if callable(mod.REQUIRED_STRATA) else mod.REQUIRED_STRATA
		if hasattr(mod, "ANCHOR_FUNCS"):
			res["anchor_funcs"] = list(mod.ANCHOR_FUNCS)
		for key in ("RULE", "ASSUMPTIONS", "LEVEL", "EXHAUSTIVE"):
			if hasattr(mod, key):
				res[key.lower()] = getattr(mod, key)
	except BaseException as exc:
		res = {"pid": pid, "status": "inconclusive",
			"reason": f"harness: {type(exc).__name__}: {exc}", "trace": traceback.format_exc()[-3000:]}
	json.dump(res, open(out, "w"))
	return 0


if __name__ == "__main__":
	sys.exit(main(sys.argv[1:]))
