"""Run in a FRESH interpreter (process-wide caches empty): do one 'first action', then build tables whose columns are named after public
Table / Vector attributes and report what the tables advertise.  usage: fresh_accessors.py <repo src> <first action>  -> one JSON line"""
import json
import sys
import warnings

sys.dont_write_bytecode = True
sys.path.insert(0, sys.argv[1])
warnings.simplefilter("ignore")
from serif import Table, Vector  # noqa: E402

first = sys.argv[2]
if first == "repr-named-vector":
	repr(Vector([1, 2], name="x"))
elif first == "repr-vector-named-like-a-method":
	repr(Vector([1, 2], name="join"))
elif first == "repr-unnamed-vector":
	repr(Vector([1, 2]))
elif first == "dir-vector":
	dir(Vector([1, 2], name="sum"))
elif first == "vector-arithmetic":
	Vector([1, 2], name="a") + 1
elif first == "repr-unnamed-table":
	repr(Table([Vector([1, 2])]))
elif first == "empty-table":
	dir(Table())
# "nothing": the tables below are the first thing the process does

public = sorted({n for n in set(dir(Table)) | set(dir(Vector)) if not n.startswith("_")})
base = set(dir(Table()))
out = {"first": first, "problems": []}
names = [n for n in public if n.isidentifier()]
for chunk in range(0, len(names), 6):
	cols = names[chunk:chunk + 6]
	t = Table([Vector([100 * i, 100 * i + 1], name=nm) for i, nm in enumerate(cols)])
	adv = [a for a in dir(t) if a not in base]
	for a in adv:
		if a in public:
			out["problems"].append(["shadows", a, cols])
	if len(adv) != len(cols):
		out["problems"].append(["count", adv, cols])
	for a in adv:
		try:
			v = getattr(t, a)
			ok = isinstance(v, Vector) and any(v is c for c in t.cols())
		except Exception as e:
			ok = False
		if not ok:
			out["problems"].append(["unresolvable", a, cols])
out["checked"] = len(names)
print(json.dumps(out))
