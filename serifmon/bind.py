"""Bind the serif under test: import it from $VERIF_REPO_SRC (default /repo/src)
and refuse to continue (inconclusive) when the imported package is another copy."""
import os
import sys

sys.dont_write_bytecode = True
REPO_SRC = os.path.realpath(os.environ.get("VERIF_REPO_SRC", "/repo/src"))
if REPO_SRC in sys.path:
	sys.path.remove(REPO_SRC)
sys.path.insert(0, REPO_SRC)

import warnings  # noqa: E402

warnings.simplefilter("ignore")

try:
	import serif  # noqa: E402
	from serif import Vector, Table, DataType, AliasError  # noqa: E402,F401
	from serif import SerifTypeError, SerifValueError, SerifKeyError, SerifIndexError, SerifError  # noqa: E402,F401
	from serif.alias_tracker import _ALIAS_TRACKER  # noqa: E402,F401
	from serif.typing import infer_dtype, infer_kind, validate_scalar  # noqa: E402,F401
	from serif.table import Row  # noqa: E402,F401
	import serif.display as display  # noqa: E402,F401
	import serif.naming as naming  # noqa: E402,F401
	BIND_ERROR = None
except Exception as exc:  # a tree that does not import cannot be judged
	serif = None
	BIND_ERROR = f"{type(exc).__name__}: {exc}"

if serif is not None:
	_where = os.path.realpath(os.path.dirname(serif.__file__))
	if not _where.startswith(REPO_SRC + os.sep):
		BIND_ERROR = f"serif imported from {_where}, expected under {REPO_SRC}"
