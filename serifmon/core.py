"""Worker-side harness: case dispatch, counters, violation records, universal
observers, anchor coverage.  One Check object per worker process."""
import base64
import hashlib
import os
import pickle
import random
import signal
import sys
import time
import traceback
from collections import Counter

from . import bind

MAX_WITNESS_PER_SIG = 3
MAX_SAMPLES = 6


class CaseTimeout(BaseException):
	pass


class HarnessError(Exception):
	pass


def short(obj, limit=600):
	try:
		s = repr(obj)
	except BaseException as exc:  # repr of serif objects may itself be broken
		s = f"<unreprable {type(obj).__name__}: {type(exc).__name__}>"
	return s if len(s) <= limit else s[:limit] + "…"


def plain(obj):
	"""Plain-data description of a spec for evidence samples / replay files."""
	if isinstance(obj, dict):
		return {str(k): plain(v) for k, v in obj.items()}
	if isinstance(obj, (list, tuple)):
		if len(obj) > 40:
			return [plain(v) for v in obj[:20]] + [f"... ({len(obj) - 40} more) ..."] + [plain(v) for v in obj[-20:]]
		return [plain(v) for v in obj]
	if obj is None or isinstance(obj, (bool, int, str)):
		if isinstance(obj, int) and abs(obj) > 2**53:
			return short(obj, 80) if obj.bit_length() < 10000 else f"<int of {obj.bit_length()} bits>"      # (beyond the int-to-str digit limit an int has no repr)
		return obj
	if isinstance(obj, float):
		return obj if obj == obj and abs(obj) != float("inf") else repr(obj)
	return short(obj, 200)


class Check:
	def __init__(self, pid, tier, seed, part=0, nparts=1, runners=None, foreign=False):
		self.pid = pid
		self.tier = tier
		self.seed = seed
		self.part = part
		self.nparts = nparts
		self.hashseed = os.environ.get("PYTHONHASHSEED", "random")
		self.rng = random.Random(f"{pid}/{seed}/{part}")
		self.runners = dict(runners or {})
		self.evaluations = 0
		self.sigs = set()
		self.strata = Counter()
		self.counters = Counter()
		self.samples = {}
		self.violations = {}      # signature -> record
		self.observers = []       # universal monitors: fn(chk, obj, origin)
		self.digests = {}         # case index -> digest of the results observed in that case
		self.case_index = 0
		self.timeouts = 0
		self.harness_errors = []
		self.case_cap_s = 20.0
		self._cur = None
		self.foreign = foreign    # True while running another property's workload
		self.funcs = set()
		self.t0 = time.time()

	# ------------------------------------------------------------------ cases
	def quick(self):
		return self.tier == "quick"

	def mine(self, index):
		"""Split enumerations over parts."""
		return index % self.nparts == self.part

	def case(self, runner, spec, stratum=None):
		if runner.startswith("foreign:"):
			# replay of a witness found while running another property's workload under this property's observers
			_, other, inner = runner.split(":", 2)
			sub = self.foreign_check(other)
			self._foreign_runner = runner
			sub.case(inner, spec, stratum)
			self.timeouts += sub.timeouts
			return
		fn = self.runners[runner]
		self._cur = (runner, spec)
		self.case_index += 1
		if stratum is not None and len(self.samples) < MAX_SAMPLES and stratum not in self.samples:
			self.samples[stratum] = {"runner": runner, "stratum": stratum, "spec": plain(spec)}
		signal.setitimer(signal.ITIMER_REAL, self.case_cap_s)
		try:
			fn(self, spec)
		except CaseTimeout:
			self.timeouts += 1
		except HarnessError as exc:
			self._harness_error(runner, spec, exc)
		except Exception as exc:
			self._harness_error(runner, spec, exc)
		finally:
			signal.setitimer(signal.ITIMER_REAL, 0)
			self._cur = None

	def _harness_error(self, runner, spec, exc):
		if len(self.harness_errors) < 5:
			self.harness_errors.append({
				"runner": runner, "spec": short(spec, 400),
				"error": f"{type(exc).__name__}: {exc}",
				"trace": traceback.format_exc()[-1500:],
			})
		self.counters["harness_errors"] += 1

	def judged(self, stratum, sig=None):
		"""One constrained case was judged; sig = its abstract case signature."""
		self.evaluations += 1
		self.strata[stratum] += 1
		if sig is not None:
			self.sigs.add(hashlib.blake2b(repr(sig).encode(), digest_size=6).hexdigest())

	def skip(self, why):
		self.counters["unconstrained:" + why] += 1

	# ------------------------------------------------------------- violations
	def fail(self, assertion, signature, message, prop=None):
		prop = prop or self.pid
		if self.foreign and prop != self.pid:
			self.counters["foreign_violation_ignored"] += 1
			return
		if prop != self.pid:
			# an own-workload runner reporting for another property: not ours
			self.counters["other_property_violation_ignored"] += 1
			return
		rec = self.violations.get(signature)
		if rec is None:
			rec = self.violations[signature] = {
				"property": prop, "assertion": assertion, "signature": signature,
				"count": 0, "witnesses": [],
			}
		rec["count"] += 1
		if len(rec["witnesses"]) < MAX_WITNESS_PER_SIG:
			runner, spec = self._cur if self._cur else (None, None)
			try:
				blob = base64.b64encode(pickle.dumps((runner, spec))).decode()
			except Exception:
				blob = None
			rec["witnesses"].append({
				"message": message, "runner": runner, "spec": plain(spec),
				"spec_pickle_b64": blob, "seed": self.seed, "part": self.part,
				"hashseed": self.hashseed,
			})

	def observe(self, obj, origin=""):
		for ob in self.observers:
			ob(self, obj, origin)

	# ------------------------------------------------- foreign workloads
	def foreign_check(self, other_pid):
		"""a sub-check that runs another property's workload; its own verdicts are dropped, every result it
		observes is passed to THIS check's universal observers (the witness is the foreign case)"""
		import importlib
		mod = importlib.import_module(f"serifmon.props.{other_pid.lower()}")
		# a foreign workload is there for its variety of results, not for its own exhaustiveness: take one third of its enumerations
		nparts = max(self.nparts, 3) if self.tier == "quick" else self.nparts
		sub = Check(other_pid, "quick", self.seed, (self.seed + self.part) % nparts, nparts, runners=mod.RUNNERS, foreign=True)
		sub.rng = random.Random(f"{self.pid}/foreign/{other_pid}/{self.seed}/{self.part}")
		sub.funcs = self.funcs
		main = self

		def observe(obj, origin=""):
			main.counters["foreign_observations:" + other_pid] += 1
			prev = main._cur
			if sub._cur is not None:
				main._cur = (f"foreign:{other_pid}:{sub._cur[0]}", sub._cur[1])
			try:
				for ob in main.observers:
					ob(main, obj, f"{other_pid}:{origin}")
			finally:
				main._cur = prev

		sub.observe = observe
		sub.fail = lambda *a, **k: None
		sub.mod = mod
		return sub

	def run_foreign(self, other_pid):
		sub = self.foreign_check(other_pid)
		if hasattr(sub.mod, "setup_foreign"):
			sub.mod.setup_foreign(sub)
		sub.mod.run(sub)
		self.timeouts += sub.timeouts
		self.counters["foreign_cases:" + other_pid] += sub.case_index
		return sub

	def feed_digest(self, item, index=None):
		"""results that must not depend on PYTHONHASHSEED, keyed by case so replicas can be compared case by case"""
		index = self.case_index if index is None else index
		prev = self.digests.get(index, "")
		self.digests[index] = hashlib.blake2b((prev + repr(item)).encode("utf-8", "backslashreplace"), digest_size=6).hexdigest()

	# --------------------------------------------------------------- coverage
	def start_coverage(self):
		mon = getattr(sys, "monitoring", None)
		if mon is None:
			return
		src = bind.REPO_SRC + os.sep
		funcs = self.funcs
		tool = 3
		try:
			mon.use_tool_id(tool, "serifmon")
		except Exception:
			return

		def on_start(code, offset):
			if code.co_filename.startswith(src):
				funcs.add(os.path.basename(code.co_filename)[:-3] + ":" + code.co_qualname)
			return mon.DISABLE

		mon.register_callback(tool, mon.events.PY_START, on_start)
		mon.set_events(tool, mon.events.PY_START)

	def result(self):
		return {
			"pid": self.pid, "tier": self.tier, "seed": self.seed, "part": self.part,
			"nparts": self.nparts, "hashseed": self.hashseed,
			"evaluations": self.evaluations, "sigs": sorted(self.sigs),
			"strata": dict(self.strata), "counters": dict(self.counters),
			"samples": list(self.samples.values()),
			"violations": list(self.violations.values()),
			"digests": self.digests,
			"timeouts": self.timeouts, "harness_errors": self.harness_errors,
			"funcs": sorted(self.funcs), "wall_s": round(time.time() - self.t0, 3),
		}


def _alarm(signum, frame):
	raise CaseTimeout()


def install_alarm():
	signal.signal(signal.SIGALRM, _alarm)


# ---------------------------------------------------------------- call helpers
class Out:
	"""Outcome of calling the library: ok(value) or err(exception)."""
	__slots__ = ("ok", "value", "exc")

	def __init__(self, ok, value=None, exc=None):
		self.ok, self.value, self.exc = ok, value, exc

	def __repr__(self):
		return f"ok({short(self.value, 200)})" if self.ok else f"err({type(self.exc).__name__}: {str(self.exc)[:120]})"


def call(fn, *args, **kw):
	try:
		return Out(True, fn(*args, **kw))
	except CaseTimeout:
		raise
	except RecursionError as exc:
		exc.__traceback__ = None
		return Out(False, exc=exc)
	except Exception as exc:
		# drop the traceback: its frames would keep locals of library code alive (e.g. the owner list built by
		# check_writable), which a real program's `except AliasError:` block releases on exit
		exc.__traceback__ = None
		ctx = exc.__context__
		while ctx is not None:
			ctx.__traceback__ = None
			ctx = ctx.__context__
		return Out(False, exc=exc)
