#!/bin/sh
# usage: tools/runall.sh [quick|thorough] [seed]   -> one line per property
tier=${1:-quick}; seed=${2:-0}
for n in 01 02 03 04 05 06 07 08 09 10 11 12 13 14 15 16 17 18 19 20; do
  VERIF_SEED=$seed ./vcheck.py --property C$n --tier $tier | grep -E "^(RESULT|INCONCLUSIVE|VIOLATION|KNOWN)" | tail -2
done
