#!/venv/bin/python
"""Print the catch matrix of the seeded changes (markdown) from seeded/*/meta.json."""
import glob, json, os, re
HERE = os.path.dirname(os.path.dirname(os.path.abspath(__file__)))
print("| seeded change | property | mechanism (first line of the author's notes) | check verdict | first signatures |")
print("|---|---|---|---|---|")
for d in sorted(glob.glob(os.path.join(HERE, "seeded", "C*-m*"))):
	m = json.load(open(os.path.join(d, "meta.json")))
	b = re.sub(r"\s+", " ", m.get("breaks", "")).replace("|", "/")[:170]
	sigs = ", ".join(f"`{s}`" for s in m["ran"]["check_signatures"][:2])
	print(f"| {os.path.basename(d)} | {m['property']} | {b} | {m['ran']['check_verdict']} ({m['ran']['check'].split('--tier ')[-1]}) | {sigs} |")
