#!/bin/sh
# usage: tools/sigs.sh C05 [quick|thorough]  -> compact list of violation signatures + witness head
./vcheck.py --property "$1" --tier "${2:-quick}" 2>&1 | grep -A1 -E "^  signature=|INCONCL|^RESULT|KNOWN" | grep -v '^--' | cut -c1-${3:-420}
