#!/venv/bin/python
"""tools/recheck_seeded.py for many changes at once: a pool of scratch worktrees of /repo's HEAD and of throw-away copies of /verif (so the real
evidence/ and replays/ are not touched), one seeded change per worker at a time; the verdict and first signatures go into seeded/<id>/meta.json.
usage: tools/recheck_parallel.py [--jobs 8] [--seed 0] [--only-missed] [dirs...]"""
import argparse, glob, json, os, queue, shutil, subprocess, sys, tempfile, threading
HERE = os.path.dirname(os.path.dirname(os.path.abspath(__file__)))
REPO = "/repo"


def sh(cmd, **kw):
	return subprocess.run(cmd, shell=True, text=True, capture_output=True, **kw)


def main():
	ap = argparse.ArgumentParser()
	ap.add_argument("dirs", nargs="*")
	ap.add_argument("--jobs", type=int, default=8)
	ap.add_argument("--seed", default="0")
	ap.add_argument("--only-missed", action="store_true")
	ap.add_argument("--copy", default="/tmp/vrecheck")
	a = ap.parse_args()
	dirs = [os.path.abspath(d.rstrip("/")) for d in (a.dirs or sorted(glob.glob(os.path.join(HERE, "seeded", "*-m*"))))]
	q = queue.Queue()
	for d in dirs:
		q.put(d)
	lock = threading.Lock()

	def worker(k):
		copy = f"{a.copy}-{k}"
		shutil.rmtree(copy, ignore_errors=True)
		sh(f"rsync -a --exclude .git --exclude replays --exclude seeded {HERE}/ {copy}/")
		wt = tempfile.mkdtemp(prefix=f"serif-recheck-{k}-")
		os.rmdir(wt)
		for attempt in range(20):      # (concurrent `git worktree add` calls contend for one lock file)
			if sh(f"git -C {REPO} worktree add -q --detach {wt} HEAD").returncode == 0:
				break
			import time
			time.sleep(0.5 + 0.1 * k)
		else:
			raise AssertionError("could not create a scratch worktree")
		try:
			while True:
				try:
					d = q.get_nowait()
				except queue.Empty:
					return
				mp = os.path.join(d, "meta.json")
				m = json.load(open(mp))
				if a.only_missed and m["ran"].get("check_verdict") == "caught":
					continue
				sh(f"git -C {wt} reset -q --hard HEAD")
				patch = os.path.join(d, "patch.diff")
				if sh(f"git -C {wt} apply --whitespace=nowarn {patch}").returncode != 0:
					r = sh(f"git -C {wt} apply --3way --whitespace=nowarn {patch}")
					sh(f"git -C {wt} reset -q")
					if r.returncode != 0 or "conflict" in r.stderr.lower():
						with lock:
							print(os.path.basename(d), "PATCH DOES NOT APPLY", flush=True)
						continue
				env = dict(os.environ, VERIF_REPO_SRC=f"{wt}/src", VERIF_SEED=str(a.seed))
				pid = m["property"]
				c = subprocess.run([os.path.join(copy, "vcheck.py"), "--property", pid, "--tier", "quick"], cwd=copy, env=env, capture_output=True, text=True, timeout=7200)
				sigs = [l.strip().split()[0][len("signature="):] for l in c.stdout.splitlines() if l.strip().startswith("signature=")][:8]
				verdict = {0: "missed", 1: "caught", 2: "inconclusive"}.get(c.returncode, str(c.returncode))
				m["ran"]["check"] = f"VERIF_REPO_SRC=<worktree>/src ./vcheck.py --property {pid} --tier quick"
				m["ran"]["check_verdict"] = verdict
				m["ran"]["check_signatures"] = sigs
				json.dump(m, open(mp, "w"), indent=1)
				with lock:
					print(os.path.basename(d), f"{pid}:{verdict} {sigs[:2]}", "(disposition)" if m.get("disposition") else "", flush=True)
		finally:
			sh(f"git -C {REPO} worktree remove --force {wt}")
			shutil.rmtree(copy, ignore_errors=True)

	ts = [threading.Thread(target=worker, args=(k,)) for k in range(a.jobs)]
	for t in ts:
		t.start()
	for t in ts:
		t.join()
	sh(f"git -C {REPO} worktree prune")


if __name__ == "__main__":
	main()
