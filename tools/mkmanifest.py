#!/venv/bin/python
"""Regenerate MANIFEST.json from the table below (kept in one place so the
manifest stays valid while checks are added)."""
import json
import os

HERE = os.path.dirname(os.path.dirname(os.path.abspath(__file__)))

# pid -> (technique, level text, level note, design ref)
CLAIMED = {
	"C04": ("runtime monitor: executed promotion automaton + exhaustive small-scope inference vs lattice model, functional-promotion hook",
		"Held on every execution explored: all sequences up to length 4 (thorough 5) over a 16-letter type alphabet and the whole reachable promotion automaton are executed against a lattice model; longer multisets and result typing are sampled. Exhaustive for the enumerated scope, sampled beyond it.",
		"Trusts the lattice model written from the statement; assumes promotion depends on a value only through its type (monitored by a hook on promote_with).", "DESIGN.md §4 C04"),
}

PENDING_REASON = "check not yet registered in this commit (under construction; runtime monitoring does apply - see DESIGN.md §4)"


def main():
	props = [json.loads(l) for l in open(os.path.join(HERE, "properties.jsonl"))]
	checks = []
	na = []
	for p in props:
		pid = p["id"]
		if pid in CLAIMED:
			tech, text, note, ref = CLAIMED[pid]
			checks.append({
				"property_id": pid,
				"quick_cmd": f"./vcheck.py --property {pid} --tier quick",
				"thorough_cmd": f"./vcheck.py --property {pid} --tier thorough",
				"evidence_file": f"/verif/evidence/{pid}.json",
				"replay_cmd_template": "./vcheck.py --replay {path}",
				"engine": "serifmon",
				"level_claimed": {"category": "fault_enumeration" if pid == "C08" else "exploration", "text": text, "design_ref": ref},
				"level_note": note,
				"technique": tech,
			})
		else:
			na.append({"property_id": pid, "reason": PENDING_REASON})
	man = {
		"version": 1,
		"setup_cmd": "/venv/bin/python -c \"import sys; assert sys.version_info >= (3, 12); import json; json.load(open('known_findings.json'))\"",
		"hooks": {
			"guard": "SERIF_VERIF",
			"enable": "no source hooks: all instrumentation is attached at run time by wrapping attributes of the imported classes (serifmon/core.py, per-property setup()); SERIF_VERIF is reserved and unused",
			"baseline_off_cmd": "cd /repo && /venv/bin/python -m pytest -ra -q -p no:cacheprovider --timeout=900 --continue-on-collection-errors",
			"source_commits": [],
			"add_only": True,
		},
		"engines": [{
			"name": "serifmon", "path": "/verif/serifmon",
			"serves_properties": sorted(CLAIMED),
			"kind_free_text": "runtime monitoring: the real serif from /repo/src is executed under generated and exhaustively enumerated small-scope workloads in fresh interpreter processes while reference-model oracles, invariant checks and run-time attribute hooks observe every result; sys.monitoring records which serif functions were reached",
		}],
		"checks": checks,
		"not_applicable": na,
		"notes": "exit 0 held / 1 violation / 2 inconclusive; known findings in known_findings.json; fixes to /repo are listed there as 'fixed'.",
	}
	json.dump(man, open(os.path.join(HERE, "MANIFEST.json"), "w"), indent=1)
	print("claimed", len(checks), "pending", len(na))


if __name__ == "__main__":
	main()
