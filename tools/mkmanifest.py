#!/venv/bin/python
"""Regenerate MANIFEST.json from the table below (kept in one place so the
manifest stays valid while checks are added)."""
import json
import os

HERE = os.path.dirname(os.path.dirname(os.path.abspath(__file__)))

# pid -> (technique, level text, level note, design ref)
CLAIMED = {
	"C04": ("runtime monitor: executed promotion automaton + exhaustive small-scope inference vs lattice model, functional-promotion hook",
		"Held on every execution explored: all sequences up to length 4 (thorough 5) over a 16-letter type alphabet and the whole reachable promotion automaton are executed against a lattice model; longer multisets and result typing (whole operator x form x kind product, joins, aggregates, CSV) are sampled. Exhaustive for the enumerated scope, sampled beyond it.",
		"Trusts the lattice model written from the statement; assumes promotion depends on a value only through its type (monitored by a hook on promote_with).", "DESIGN.md §4 C04"),
	"C05": ("runtime monitor: Python-operator reference oracle over the operator x operand-form x dtype-pair product, broadcast-method enumeration",
		"Held on every constrained execution explored: the complete product of 7 binary + 3 unary operators x 5 operand forms x 20 kind pairs x lengths {0,1,2,5} x None patterns, explicit length mismatches, table arithmetic, every broadcastable str/int/float/bool/date/datetime method and property at sizes 1/3/40. Values are sampled; the operator/form/kind structure is complete.",
		"The oracle is CPython's own operator applied per element; cases where Python raises are unconstrained.", "DESIGN.md §4 C05"),
	"C06": ("runtime monitor: exhaustive None-position subsets (len<=5) x dtypes against Python reference reductions/comparisons, metamorphic None-free relation",
		"Held on every constrained execution explored: all 62 None masks of lengths 1-5 x 8 dtypes through arithmetic, comparisons, reductions, per-group aggregates and isna/dropna/fillna (vectors built directly and with None introduced by writes/concatenation).",
		"Python semantics on the None-free operands are the oracle; float reductions compared with isclose.", "DESIGN.md §4 C06"),
	"C07": ("runtime monitor: exhaustive slice/index/mask enumeration on lengths 0-5 against list semantics; table selection commutation; rename histories",
		"Held on every execution explored: all 2304 slices x 6 lengths, all indices -7..7, all masks of length n and n+-1 (n<=5), comparison results over dtype pairs and hash-colliding near-equal vectors, table row selection / commutation / missing-name (also after renames) on sampled tables.",
		"Python list semantics are the oracle.", "DESIGN.md §4 C07"),
	"C09": ("runtime monitor: nested-loop join model on id-tagged rows, exhaustive small key space, join/edit/join histories, PYTHONHASHSEED replicas with per-case result digests",
		"Held on every execution explored: all key columns over {None,1,2} with 0-3 rows per side by name and by vector, sampled 1-3 key columns with duplicates/None/hash-colliding ints, multi-step histories on the same table objects, three (thorough four) hash seeds compared case by case.",
		"Nested-loop model over the tables' current contents; refusal allowed only for differing/float/undetermined key kinds.", "DESIGN.md §4 C09"),
	"C10": ("runtime monitor: nested-loop outer-join model + conservation/containment/symmetry relations on id-tagged rows, join/edit/join histories",
		"Held on every execution explored: the C09 key space for left and full joins (every subset of unmatched rows for <=3 rows per side), sampled tables, histories, and the relations inner<=left<=full, id conservation and full-join symmetry.",
		"Same as C09.", "DESIGN.md §4 C10"),
	"C11": ("runtime monitor: executed 48-cell decision table with duplicate-placement variants, join/edit/join histories",
		"Held on every execution explored: every cell of kind x expect x left-unique x right-unique realised by 7 duplicate placements x 2 key kinds, empty sides, invalid expect values, sampled tables and histories in which a key edit creates or removes a duplicate between two calls.",
		"Uniqueness computed by the model on whole key tuples (None equals None).", "DESIGN.md §4 C11"),
	"C12": ("runtime monitor: list-search group-by model + call-recording apply spies, exhaustive small key space, PYTHONHASHSEED replicas",
		"Held on every execution explored: all single key columns over {None,'a','b'} up to length 5, sampled 1-3 keys (by name / column / external vector), every subset of built-ins with repeated columns, apply spies (incl. input-draining callbacks), vector-vs-single-group agreement, three (thorough four) hash seeds compared case by case.",
		"Grouping by == without hashing is the oracle; outputs matched as multiset of value lists plus name/function association.", "DESIGN.md §4 C12"),
	"C13": ("runtime monitor: window vs list-search model and vs the real aggregate joined back on the key (two independent references)",
		"Held on every execution explored: the C12 key space and sampled specs through window(), plus same-named aggregated vectors, all-singleton groups and falsy values; every row compared with the model and with aggregate().",
		"Same as C12; window/aggregate paired by position when their name lists agree.", "DESIGN.md §4 C13"),
	"C14": ("runtime monitor: sortedness/stability checker over id-tagged rows (not a second sort), exhaustive small key space, idempotence probe",
		"Held on every execution explored: all key columns over {None,1,2} up to length 5 x reverse x na_last for tables (reverse as bool/list/tuple, key by name/column/external) and vectors, sampled 1-3 keys with per-key directions, ties, pre-ordered keys; each result also re-sorted.",
		"The comparator model (None placement independent of direction, ties by ==) is the oracle.", "DESIGN.md §4 C14"),
	"C19": ("runtime monitor: generated cell-text grids serialised with csv.writer, cell rule re-applied to the same texts as oracle",
		"Held on every execution explored: every dictionary cell text x 4 delimiters x path/file-object, header-only and empty inputs, sampled grids with record-length patterns, repeated/odd headers, quoted cells with embedded delimiters, quotes, \\n, \\r\\n and \\r.",
		"Files are well-formed CSV as written by csv.writer; longer-than-header records and blank lines are not generated.", "DESIGN.md §4 C19"),
	"C20": ("runtime monitor: repr output parser (footer, dtype tokens, body rows, header) + totality/purity observer applied to results of other workloads",
		"Held on every execution explored: the length x limit x width grid for vectors and tables (set_repr_rows and per-table overrides, 1-12 columns), hostile values of every dtype, 10^4-element vectors, 0-25 columns, and every result of the arithmetic / None / join / aggregate / sort / CSV workloads observed for totality and purity.",
		"Body content compared for simple cells only; odd limits judged against the effective limit.", "DESIGN.md §4 C20"),
}

PENDING_REASON = "check not yet registered in this commit (under construction; runtime monitoring does apply - see DESIGN.md §4)"


def main():
	props = [json.loads(l) for l in open(os.path.join(HERE, "properties.jsonl"))]
	checks = []
	na = []
	for p in props:
		pid = p["id"]
		if pid in CLAIMED:
			tech, text, note, ref = CLAIMED[pid]
			checks.append({
				"property_id": pid,
				"quick_cmd": f"./vcheck.py --property {pid} --tier quick",
				"thorough_cmd": f"./vcheck.py --property {pid} --tier thorough",
				"evidence_file": f"/verif/evidence/{pid}.json",
				"replay_cmd_template": "./vcheck.py --replay {path}",
				"engine": "serifmon",
				"level_claimed": {"category": "fault_enumeration" if pid == "C08" else "exploration", "text": text, "design_ref": ref},
				"level_note": note,
				"technique": tech,
			})
		else:
			na.append({"property_id": pid, "reason": PENDING_REASON})
	man = {
		"version": 1,
		"setup_cmd": "/venv/bin/python -c \"import sys; assert sys.version_info >= (3, 12); import json; json.load(open('known_findings.json'))\"",
		"hooks": {
			"guard": "SERIF_VERIF",
			"enable": "no source hooks: all instrumentation is attached at run time by wrapping attributes of the imported classes (serifmon/core.py, per-property setup()); SERIF_VERIF is reserved and unused",
			"baseline_off_cmd": "cd /repo && /venv/bin/python -m pytest -ra -q -p no:cacheprovider --timeout=900 --continue-on-collection-errors",
			"source_commits": [],
			"add_only": True,
		},
		"engines": [{
			"name": "serifmon", "path": "/verif/serifmon",
			"serves_properties": sorted(CLAIMED),
			"kind_free_text": "runtime monitoring: the real serif from /repo/src is executed under generated and exhaustively enumerated small-scope workloads in fresh interpreter processes while reference-model oracles, invariant checks and run-time attribute hooks observe every result; sys.monitoring records which serif functions were reached",
		}],
		"checks": checks,
		"not_applicable": na,
		"notes": "exit 0 held / 1 violation / 2 inconclusive; known findings in known_findings.json; fixes to /repo are listed there as 'fixed'.",
	}
	json.dump(man, open(os.path.join(HERE, "MANIFEST.json"), "w"), indent=1)
	print("claimed", len(checks), "pending", len(na))


if __name__ == "__main__":
	main()
