#!/venv/bin/python
"""Regenerate MANIFEST.json from the table below (kept in one place so the
manifest stays valid while checks are added)."""
import json
import os

HERE = os.path.dirname(os.path.dirname(os.path.abspath(__file__)))

# pid -> (technique, level text, level note, design ref)
CLAIMED = {
	"C04": ("runtime monitor: executed promotion automaton + exhaustive small-scope inference vs lattice model, functional-promotion hook",
		"Held on every execution explored: all sequences up to length 4 (thorough 5) over a 16-letter type alphabet and the whole reachable promotion automaton are executed against a lattice model; longer multisets and result typing (whole operator x form x kind product, joins, aggregates, CSV) are sampled. Exhaustive for the enumerated scope, sampled beyond it.",
		"Trusts the lattice model written from the statement; assumes promotion depends on a value only through its type (monitored by a hook on promote_with).", "DESIGN.md §4 C04"),
	"C05": ("runtime monitor: Python-operator reference oracle over the operator x operand-form x dtype-pair product, broadcast-method enumeration",
		"Held on every constrained execution explored: the complete product of 7 binary + 3 unary operators x 5 operand forms x 20 kind pairs x lengths {0,1,2,5} x None patterns, explicit length mismatches, table arithmetic, every broadcastable str/int/float/bool/date/datetime method and property at sizes 1/3/40. Values are sampled; the operator/form/kind structure is complete.",
		"The oracle is CPython's own operator applied per element; cases where Python raises are unconstrained.", "DESIGN.md §4 C05"),
	"C06": ("runtime monitor: exhaustive None-position subsets (len<=5) x dtypes against Python reference reductions/comparisons, metamorphic None-free relation",
		"Held on every constrained execution explored: all 62 None masks of lengths 1-5 x 8 dtypes through arithmetic, comparisons, reductions, per-group aggregates and isna/dropna/fillna (vectors built directly and with None introduced by writes/concatenation).",
		"Python semantics on the None-free operands are the oracle; float reductions compared with isclose.", "DESIGN.md §4 C06"),
	"C07": ("runtime monitor: exhaustive slice/index/mask enumeration on lengths 0-5 against list semantics; table selection commutation; rename histories",
		"Held on every execution explored: all 2304 slices x 6 lengths, all indices -7..7, all masks of length n and n+-1 (n<=5), comparison results over dtype pairs and hash-colliding near-equal vectors, table row selection / commutation / missing-name (also after renames) on sampled tables.",
		"Python list semantics are the oracle.", "DESIGN.md §4 C07"),
	"C09": ("runtime monitor: nested-loop join model on id-tagged rows, exhaustive small key space, join/edit/join histories, PYTHONHASHSEED replicas with per-case result digests",
		"Held on every execution explored: all key columns over {None,1,2} with 0-3 rows per side by name and by vector, sampled 1-3 key columns with duplicates/None/hash-colliding ints, multi-step histories on the same table objects, three (thorough four) hash seeds compared case by case.",
		"Nested-loop model over the tables' current contents; refusal allowed only for differing/float/undetermined key kinds.", "DESIGN.md §4 C09"),
	"C10": ("runtime monitor: nested-loop outer-join model + conservation/containment/symmetry relations on id-tagged rows, join/edit/join histories",
		"Held on every execution explored: the C09 key space for left and full joins (every subset of unmatched rows for <=3 rows per side), sampled tables, histories, and the relations inner<=left<=full, id conservation and full-join symmetry.",
		"Same as C09.", "DESIGN.md §4 C10"),
	"C11": ("runtime monitor: executed 48-cell decision table with duplicate-placement variants, join/edit/join histories",
		"Held on every execution explored: every cell of kind x expect x left-unique x right-unique realised by 7 duplicate placements x 2 key kinds, empty sides, invalid expect values, sampled tables and histories in which a key edit creates or removes a duplicate between two calls.",
		"Uniqueness computed by the model on whole key tuples (None equals None).", "DESIGN.md §4 C11"),
	"C12": ("runtime monitor: list-search group-by model + call-recording apply spies, exhaustive small key space, PYTHONHASHSEED replicas",
		"Held on every execution explored: all single key columns over {None,'a','b'} up to length 5, sampled 1-3 keys (by name / column / external vector), every subset of built-ins with repeated columns, apply spies (incl. input-draining callbacks), vector-vs-single-group agreement, three (thorough four) hash seeds compared case by case.",
		"Grouping by == without hashing is the oracle; outputs matched as multiset of value lists plus name/function association.", "DESIGN.md §4 C12"),
	"C13": ("runtime monitor: window vs list-search model and vs the real aggregate joined back on the key (two independent references)",
		"Held on every execution explored: the C12 key space and sampled specs through window(), plus same-named aggregated vectors, all-singleton groups and falsy values; every row compared with the model and with aggregate().",
		"Same as C12; window/aggregate paired by position when their name lists agree.", "DESIGN.md §4 C13"),
	"C14": ("runtime monitor: sortedness/stability checker over id-tagged rows (not a second sort), exhaustive small key space, idempotence probe",
		"Held on every execution explored: all key columns over {None,1,2} up to length 5 x reverse x na_last for tables (reverse as bool/list/tuple, key by name/column/external) and vectors, sampled 1-3 keys with per-key directions, ties, pre-ordered keys; each result also re-sorted.",
		"The comparator model (None placement independent of direction, ties by ==) is the oracle.", "DESIGN.md §4 C14"),
	"C19": ("runtime monitor: generated cell-text grids serialised with csv.writer, cell rule re-applied to the same texts as oracle",
		"Held on every execution explored: every dictionary cell text x 4 delimiters x path/file-object, header-only and empty inputs, sampled grids with record-length patterns, repeated/odd headers, quoted cells with embedded delimiters, quotes, \\n, \\r\\n and \\r.",
		"Files are well-formed CSV as written by csv.writer; longer-than-header records and blank lines are not generated.", "DESIGN.md §4 C19"),
	"C20": ("runtime monitor: repr output parser (footer, dtype tokens, body rows, header) + totality/purity observer applied to results of other workloads",
		"Held on every execution explored: the length x limit x width grid for vectors and tables (set_repr_rows and per-table overrides, 1-12 columns), hostile values of every dtype, 10^4-element vectors, 0-25 columns, and every result of the arithmetic / None / join / aggregate / sort / CSV workloads observed for totality and purity.",
		"Body content compared for simple cells only; odd limits judged against the effective limit.", "DESIGN.md §4 C20"),
	"C01": ("runtime monitor: frame-condition oracle over an object-pool history machine (snapshots of every live handle after every step) + directed derivation x write matrix",
		"Held on every execution explored: every (derivation, write form, side written) triple of a 19 x 14 x 2 matrix and sampled histories of <=12 simultaneously live vectors / tables / column views / rows with construct, derive, view, write, rename, read-only (incl. failing) and lifetime operations; after every step every handle outside the writer's may-change set is compared with its snapshot.",
		"May-change sets come from provenance (which handle is a live column of which table), not from object identity; snapshots ignore internal caches.", "DESIGN.md §4 C01"),
	"C02": ("runtime monitor: rectangularity / row-vs-column invariant evaluated on every live table at every quiescent point of pool histories + list-model oracle for structural operations",
		"Held on every execution explored: all shapes 0-3 x 0-3 through 17 structural operations (incl. ragged and wrong-length requests) against list models, and the invariant on every live table after every step of sampled histories (joins, sorts, transposes, cell/row/column/region/attribute writes, failing operations).",
		"Tables whose columns are themselves tables are not judged; ragged requests may raise or return a non-Table.", "DESIGN.md §4 C02"),
	"C03": ("runtime monitor: universal truthfulness observer (lattice belongs-to + write-back probe) attached to the results of nine other workloads, pool histories and a weak-point matrix",
		"Held on every vector observed: results of the C05/C06/C07/C09/C10/C12/C13/C14/C19 workloads, every pooled vector and column after every history step, a 43-operation x 8-kind weak-point matrix and multi-value assignments with promotion / None / incompatible values at each position; each also probed by writing elements back on a copy.",
		"isinstance counts as belonging; schema-less (empty) vectors claim nothing; Row objects are not judged.", "DESIGN.md §4 C03"),
	"C08": ("runtime fault enumeration: list-assignment + promotion-lattice oracle with exceptional postcondition (state unchanged after any failure), faulty iterables raising in __iter__/__next__/__len__",
		"Held on every execution explored: 9 key forms x 5 value forms x 9 column kinds x value-class patterns with every fault position k and pairs j<k, wrong lengths / mask lengths / out-of-range indices at every position / unsupported keys, exceptions while the value is consumed, table cell/row/column/region assignment with faults, rename_columns with the failing name at every position.",
		"Atomicity judged per vector and for rename_columns; bool-column widening may promote or reject; contents compared modulo documented widening.", "DESIGN.md §4 C08"),
	"C15": ("runtime monitor: hooks on Vector.__init__ (census of live vectors) and on the alias tracker's register/unregister (shadow index walked after every step), identity-reuse attack, ground-truth judgement of every AliasError",
		"Held on every execution explored: pool histories biased to shared tuples, storage-swapping table paths, promotions, drops, cycles and gc placement; directed bursts over widths 1-8 followed by floods of fresh same-width vectors; sharing scenarios with 2-3 sharers. Every refusal was justified by a live sharer; no stale registration could be turned into a refusal.",
		"Behavioural verdict: stale registrations that cannot be realised as a refusal are evidence only; zero-length vectors excluded.", "DESIGN.md §4 C15"),
	"C16": ("runtime monitor: freshness oracle (fingerprint of an object rebuilt from current contents) at every quiescent point + single-position sensitivity by hash arithmetic + cancelling two-cell writes with per-cell hashes dictated through the run-time instrumented element-hash hook",
		"Held on every execution explored: write path x cached-before x object kind x dtype matrix for vectors and tables (views, cells, rows, columns, regions, attribute assignment, promotion), swap and read-only probes, and freshness of every pooled object after every history step.",
		"Hash-equal pairs modulo 2^61-1 exempt from sensitivity; the library's own fingerprint on a rebuilt object is the freshness reference.", "DESIGN.md §4 C16"),
	"C17": ("runtime monitor: positional-identity oracle (cell (r,i) = 100*i+r) over advertised accessors from dir() and the repr dot row, rename/replace/append histories",
		"Held on every execution explored: all ordered pairs over a 40-name dictionary, sampled lists up to width 12 with forced duplicates, and histories of rename_column(s), rename through a live view, attribute replacement and >> with dir()/repr() interleaved; every advertised name checked through getattr, t[0,name]=x, t[0].name and t[stored name].",
		"Identifier = str.isidentifier(); disambiguation scheme free; sanitisation equality only where the documented rule is unambiguous.", "DESIGN.md §4 C17"),
	"C18": ("runtime monitor: name-propagation rule table applied to operands' actual names after every operation of random compositions; aggregate/window name matching",
		"Held on every execution explored: sampled compositions (depth 1-4) of vector/vector math and comparisons, name-keeping vector operations, table/scalar and table/table arithmetic, table builders, row selection, sorts and joins; aggregate and window naming with repeated columns, same-named keys and colliding apply names.",
		"Vector/scalar, unary, cast/fill/drop and << not judged; output order of aggregates not judged.", "DESIGN.md §4 C18"),
}

PENDING_REASON = "check not yet registered in this commit (under construction; runtime monitoring does apply - see DESIGN.md §4)"


def main():
	props = [json.loads(l) for l in open(os.path.join(HERE, "properties.jsonl"))]
	checks = []
	na = []
	for p in props:
		pid = p["id"]
		if pid in CLAIMED:
			tech, text, note, ref = CLAIMED[pid]
			checks.append({
				"property_id": pid,
				"quick_cmd": f"./vcheck.py --property {pid} --tier quick",
				"thorough_cmd": f"./vcheck.py --property {pid} --tier thorough",
				"evidence_file": f"/verif/evidence/{pid}.json",
				"replay_cmd_template": "./vcheck.py --replay {path}",
				"engine": "serifmon",
				"level_claimed": {"category": "fault_enumeration" if pid == "C08" else "exploration", "text": text, "design_ref": ref},
				"level_note": note,
				"technique": tech,
			})
		else:
			na.append({"property_id": pid, "reason": PENDING_REASON})
	man = {
		"version": 1,
		"setup_cmd": "/venv/bin/python -c \"import sys; assert sys.version_info >= (3, 12); import json; json.load(open('known_findings.json'))\"",
		"hooks": {
			"guard": "SERIF_VERIF",
			"enable": "no source hooks: all instrumentation is attached at run time by wrapping attributes of the imported classes (serifmon/core.py, per-property setup()); SERIF_VERIF is reserved and unused",
			"baseline_off_cmd": "cd /repo && /venv/bin/python -m pytest -ra -q -p no:cacheprovider --timeout=900 --continue-on-collection-errors",
			"source_commits": [],
			"add_only": True,
		},
		"engines": [{
			"name": "serifmon", "path": "/verif/serifmon",
			"serves_properties": sorted(CLAIMED),
			"kind_free_text": "runtime monitoring: the real serif from /repo/src is executed under generated and exhaustively enumerated small-scope workloads in fresh interpreter processes while reference-model oracles, invariant checks and run-time attribute hooks observe every result; sys.monitoring records which serif functions were reached",
		}],
		"checks": checks,
		"not_applicable": na,
		"notes": "exit 0 held / 1 violation / 2 inconclusive; known findings in known_findings.json; fixes to /repo are listed there as 'fixed'.",
	}
	json.dump(man, open(os.path.join(HERE, "MANIFEST.json"), "w"), indent=1)
	print("claimed", len(checks), "pending", len(na))


if __name__ == "__main__":
	main()
