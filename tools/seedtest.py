#!/venv/bin/python
"""Apply each seeded defect to /repo, run the check of its property, undo it.
usage: tools/seedtest.py [--tier quick|thorough] [--all-props] DIR...   (DIR = seeded/<id> or a dir with mK.diff files)
Never leaves /repo modified: the patch is reverted with `git checkout -- .` in a finally block."""
import argparse
import glob
import json
import os
import subprocess
import sys

HERE = os.path.dirname(os.path.dirname(os.path.abspath(__file__)))
REPO = "/repo"


def sh(cmd, **kw):
	return subprocess.run(cmd, shell=True, text=True, capture_output=True, **kw)


def clean():
	return sh(f"git -C {REPO} status --porcelain -- src").stdout.strip() == ""


def run_one(patch, pid, tier, extra_props=()):
	assert clean(), "/repo has local modifications; refusing to run"
	res = {}
	a = sh(f"git -C {REPO} apply --whitespace=nowarn {patch}")
	if a.returncode != 0:
		a = sh(f"git -C {REPO} apply --3way --whitespace=nowarn {patch}")
		if a.returncode != 0:
			sh(f"git -C {REPO} reset -q --hard HEAD")
			return {"apply": "FAILED: " + a.stderr.strip()[:300]}
		sh(f"git -C {REPO} reset -q")
	try:
		for p in (pid,) + tuple(extra_props):
			r = sh(f"./vcheck.py --property {p} --tier {tier}", cwd=HERE)
			sigs = [l.strip() for l in r.stdout.splitlines() if l.strip().startswith("signature=")]
			res[p] = {"rc": r.returncode, "sigs": [s.split()[0][len("signature="):] for s in sigs][:6],
				"tail": r.stdout.strip().splitlines()[-1][:300] if r.stdout.strip() else r.stderr[-300:]}
	finally:
		sh(f"git -C {REPO} reset -q --hard HEAD")
	assert clean()
	return res


def main():
	ap = argparse.ArgumentParser()
	ap.add_argument("--tier", default="quick")
	ap.add_argument("--props", default="", help="comma list of extra properties to run on every patch")
	ap.add_argument("dirs", nargs="+")
	a = ap.parse_args()
	extra = tuple(x for x in a.props.split(",") if x)
	out = {}
	for d in a.dirs:
		d = d.rstrip("/")
		meta = os.path.join(d, "meta.json")
		if os.path.exists(meta):
			m = json.load(open(meta))
			patches = [(os.path.join(d, "patch.diff"), m["property"])]
		else:
			pid = os.path.basename(d)[:3]
			patches = [(p, pid) for p in sorted(glob.glob(os.path.join(d, "m*.diff")))]
		for patch, pid in patches:
			res = run_one(os.path.abspath(patch), pid, a.tier, tuple(x for x in extra if x != pid))
			out[patch] = res
			line = []
			for p, r in res.items():
				if p == "apply":
					line.append(r)
				else:
					line.append(f"{p}:rc={r['rc']} {'CAUGHT' if r['rc'] == 1 else ('INCONCLUSIVE' if r['rc'] == 2 else 'missed')} {r['sigs'][:3]}")
			print(patch, "|", " ; ".join(line), flush=True)
	# evidence files were rewritten by runs on mutated trees: the caller must re-run the real checks
	print("NOTE: evidence/ now reflects mutated trees - re-run the checks on the clean tree before committing", file=sys.stderr)


if __name__ == "__main__":
	main()
