#!/venv/bin/python
"""Confirm a sub-agent's seeded defect independently and file it under seeded/<id>/.

usage: tools/adopt_seeded.py <incoming dir with mK.diff mK_demo.py mK.md> [--tier quick]

For every mK in the directory, in a scratch git worktree of /repo's HEAD (outside /repo and /verif, removed afterwards):
  1. the patch applies, 2. the repository's own test suite still passes with it, 3. the demonstration exits non-zero with the
  patch and zero without, 4. the check of the property (run with VERIF_REPO_SRC pointing at the scratch tree) reports a violation.
Only changes that pass 1-3 are kept (seeded/<PID>-<k>/patch.diff, demo.py, notes.md, meta.json)."""
import argparse
import glob
import json
import os
import shutil
import subprocess
import sys
import tempfile

HERE = os.path.dirname(os.path.dirname(os.path.abspath(__file__)))
REPO = "/repo"


def sh(cmd, **kw):
	return subprocess.run(cmd, shell=True, text=True, capture_output=True, **kw)


def main():
	ap = argparse.ArgumentParser()
	ap.add_argument("dirs", nargs="+")
	ap.add_argument("--tier", default="quick")
	ap.add_argument("--prefix", default="")
	a = ap.parse_args()
	wt = tempfile.mkdtemp(prefix="serif-seed-wt-")
	os.rmdir(wt)
	r = sh(f"git -C {REPO} worktree add -q --detach {wt} HEAD")
	assert r.returncode == 0, r.stderr
	head = sh(f"git -C {REPO} rev-parse --short HEAD").stdout.strip()
	env = dict(os.environ, PYTHONPATH=f"{wt}/src", PYTHONDONTWRITEBYTECODE="1")
	try:
		for d in a.dirs:
			d = d.rstrip("/")
			pid = os.path.basename(d)[:3]
			for patch in sorted(glob.glob(os.path.join(d, "m*.diff"))):
				k = os.path.basename(patch)[:-5]
				demo = os.path.abspath(os.path.join(d, f"{k}_demo.py"))
				notes = os.path.join(d, f"{k}.md")
				rec = {"property": pid, "source": f"{os.path.basename(d)}/{k}", "repo_head": head}
				sh(f"git -C {wt} reset -q --hard HEAD")
				clean_demo = subprocess.run(["/venv/bin/python", demo], cwd=wt, env=env, capture_output=True, text=True, timeout=600)
				rec["demo_exit_clean"] = clean_demo.returncode
				ap_ = sh(f"git -C {wt} apply --whitespace=nowarn {os.path.abspath(patch)}")
				if ap_.returncode != 0:
					ap_ = sh(f"git -C {wt} apply --3way --whitespace=nowarn {os.path.abspath(patch)}")
					sh(f"git -C {wt} reset -q")
				rec["applies"] = ap_.returncode == 0 and "conflict" not in ap_.stderr.lower()
				if not rec["applies"]:
					rec["kept"] = False
					rec["why"] = "patch does not apply to the current tree: " + ap_.stderr.strip()[:200]
					print(json.dumps(rec))
					sh(f"git -C {wt} reset -q --hard HEAD")
					continue
				t = subprocess.run(["/venv/bin/python", "-m", "pytest", "-q", "-p", "no:cacheprovider", "-n", "8", "-x"], cwd=wt, env=env, capture_output=True, text=True, timeout=900)
				rec["tests_with_patch"] = t.stdout.strip().splitlines()[-1] if t.stdout.strip() else t.stderr[-200:]
				rec["tests_pass"] = t.returncode == 0
				dm = subprocess.run(["/venv/bin/python", demo], cwd=wt, env=env, capture_output=True, text=True, timeout=600)
				rec["demo_exit_patched"] = dm.returncode
				rec["demo_output_patched"] = (dm.stdout + dm.stderr).strip()[-400:]
				cenv = dict(os.environ, VERIF_REPO_SRC=f"{wt}/src")
				c = subprocess.run([os.path.join(HERE, "vcheck.py"), "--property", pid, "--tier", a.tier], cwd=HERE, env=cenv, capture_output=True, text=True, timeout=3600)
				rec["check_rc"] = c.returncode
				rec["check_signatures"] = [l.strip().split()[0][len("signature="):] for l in c.stdout.splitlines() if l.strip().startswith("signature=")][:8]
				rec["check_verdict"] = {0: "missed", 1: "caught", 2: "inconclusive"}.get(c.returncode, str(c.returncode))
				rec["kept"] = bool(rec["tests_pass"] and rec["demo_exit_patched"] != 0 and rec["demo_exit_clean"] == 0)
				if not rec["kept"]:
					rec["why"] = "tests fail with the patch" if not rec["tests_pass"] else ("demo does not fail with the patch" if rec["demo_exit_patched"] == 0 else "demo fails on the clean tree (already fixed or not a defect of the patch)")
				sh(f"git -C {wt} reset -q --hard HEAD")
				if rec["kept"]:
					out = os.path.join(HERE, "seeded", f"{a.prefix}{pid}-{k}")
					os.makedirs(out, exist_ok=True)
					shutil.copy(patch, os.path.join(out, "patch.diff"))
					shutil.copy(demo, os.path.join(out, "demo.py"))
					if os.path.exists(notes):
						shutil.copy(notes, os.path.join(out, "notes.md"))
					meta = {
						"property": pid,
						"breaks": open(notes).read().strip().splitlines()[0][:300] if os.path.exists(notes) else "",
						"needs_to_manifest": "see notes.md",
						"ran": {
							"tree": f"scratch worktree of /repo at {head}",
							"tests_with_patch": rec["tests_with_patch"],
							"demo_exit_with_patch": rec["demo_exit_patched"],
							"demo_exit_without_patch": rec["demo_exit_clean"],
							"check": f"VERIF_REPO_SRC=<worktree>/src ./vcheck.py --property {pid} --tier {a.tier}",
							"check_verdict": rec["check_verdict"],
							"check_signatures": rec["check_signatures"],
						},
					}
					json.dump(meta, open(os.path.join(out, "meta.json"), "w"), indent=1)
				print(json.dumps({k2: rec[k2] for k2 in ("source", "applies", "tests_pass", "demo_exit_patched", "demo_exit_clean", "check_verdict", "kept") if k2 in rec} | ({"why": rec["why"]} if "why" in rec else {})), flush=True)
	finally:
		sh(f"git -C {REPO} worktree remove --force {wt}")
		sh(f"git -C {REPO} worktree prune")
	print("NOTE: checks ran against a scratch tree: re-run the checks on /repo before committing evidence", file=sys.stderr)


if __name__ == "__main__":
	main()
