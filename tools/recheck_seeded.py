#!/venv/bin/python
"""Re-run the property's check against seeded changes (scratch worktree + VERIF_REPO_SRC) and update meta.json.
usage: tools/recheck_seeded.py [--tier quick] [--only-missed] seeded/<id> ...   (default: every seeded/* dir)"""
import argparse, glob, json, os, subprocess, sys, tempfile
HERE = os.path.dirname(os.path.dirname(os.path.abspath(__file__)))
REPO = "/repo"

def sh(cmd, **kw):
	return subprocess.run(cmd, shell=True, text=True, capture_output=True, **kw)

def main():
	ap = argparse.ArgumentParser()
	ap.add_argument("dirs", nargs="*")
	ap.add_argument("--tier", default="quick")
	ap.add_argument("--only-missed", action="store_true")
	ap.add_argument("--props", default="", help="also run these properties' checks (comma list) and record who catches")
	a = ap.parse_args()
	dirs = a.dirs or sorted(glob.glob(os.path.join(HERE, "seeded", "*-m*")))
	wt = tempfile.mkdtemp(prefix="serif-seed-wt-"); os.rmdir(wt)
	assert sh(f"git -C {REPO} worktree add -q --detach {wt} HEAD").returncode == 0
	try:
		for d in dirs:
			d = d.rstrip("/")
			mp = os.path.join(d, "meta.json")
			m = json.load(open(mp))
			if a.only_missed and m["ran"].get("check_verdict") == "caught":
				continue
			sh(f"git -C {wt} reset -q --hard HEAD")
			ap_ = sh(f"git -C {wt} apply --whitespace=nowarn {os.path.abspath(os.path.join(d, 'patch.diff'))}")
			if ap_.returncode != 0:
				ap_ = sh(f"git -C {wt} apply --3way --whitespace=nowarn {os.path.abspath(os.path.join(d, 'patch.diff'))}")
				sh(f"git -C {wt} reset -q")
				if ap_.returncode != 0 or "conflict" in ap_.stderr.lower():
					print(os.path.basename(d), "PATCH DOES NOT APPLY"); continue
			env = dict(os.environ, VERIF_REPO_SRC=f"{wt}/src")
			pids = [m["property"]] + [x for x in a.props.split(",") if x and x != m["property"]]
			out = []
			for pid in pids:
				c = subprocess.run([os.path.join(HERE, "vcheck.py"), "--property", pid, "--tier", a.tier], cwd=HERE, env=env, capture_output=True, text=True, timeout=7200)
				sigs = [l.strip().split()[0][len("signature="):] for l in c.stdout.splitlines() if l.strip().startswith("signature=")][:8]
				verdict = {0: "missed", 1: "caught", 2: "inconclusive"}.get(c.returncode, str(c.returncode))
				out.append((pid, verdict, sigs))
				if pid == m["property"]:
					m["ran"]["check"] = f"VERIF_REPO_SRC=<worktree>/src ./vcheck.py --property {pid} --tier {a.tier}"
					m["ran"]["check_verdict"] = verdict
					m["ran"]["check_signatures"] = sigs
				else:
					m["ran"].setdefault("also_caught_by", {})[pid] = verdict
			json.dump(m, open(mp, "w"), indent=1)
			print(os.path.basename(d), " ; ".join(f"{p}:{v} {s[:2]}" for p, v, s in out), flush=True)
	finally:
		sh(f"git -C {REPO} worktree remove --force {wt}"); sh(f"git -C {REPO} worktree prune")
	print("NOTE: evidence/ now reflects mutated trees - re-run the checks on /repo before committing", file=sys.stderr)

if __name__ == "__main__":
	main()
