#!/venv/bin/python
"""Which functions of serif did NO check enter?  Reads evidence/*.json (serif_functions_entered_names, measured with sys.monitoring PY_START)
and compares with every function / method defined under /repo/src/serif (ast).  usage: tools/coverage_gaps.py"""
import ast, glob, json, os
HERE = os.path.dirname(os.path.dirname(os.path.abspath(__file__)))
SRC = os.environ.get("VERIF_REPO_SRC", "/repo/src") + "/serif"
entered = set()
per = {}
for f in sorted(glob.glob(os.path.join(HERE, "evidence", "C*.json"))):
	names = json.load(open(f))["coverage"].get("serif_functions_entered_names", [])
	per[os.path.basename(f)[:-5]] = set(names)
	entered.update(names)
defined = set()
for f in glob.glob(SRC + "/*.py"):
	mod = os.path.basename(f)[:-3]
	tree = ast.parse(open(f).read())

	def walk(node, prefix):
		for ch in ast.iter_child_nodes(node):
			if isinstance(ch, (ast.FunctionDef, ast.AsyncFunctionDef)):
				defined.add(f"{mod}:{prefix}{ch.name}")
				walk(ch, f"{prefix}{ch.name}.<locals>.")
			elif isinstance(ch, ast.ClassDef):
				walk(ch, f"{prefix}{ch.name}.")
			else:
				walk(ch, prefix)
	walk(tree, "")
missing = sorted(defined - entered)
print(f"{len(defined)} functions defined, {len(defined & entered)} entered by at least one check, {len(missing)} never entered:")
for m in missing:
	print("  ", m)
