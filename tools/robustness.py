#!/venv/bin/python
"""How seed-dependent is the detection of each seeded change?  For every seeded/<id> the quick tier of the property's check is
run against the patched tree under several VERIF_SEED values; prints one line per change with the seeds that MISSED it.
Runs from a throw-away copy of /verif (so evidence/ and replays/ of the real tree are not touched) with a pool of scratch worktrees.
usage: tools/robustness.py [--seeds 1,2,3] [--jobs 4] [--copy /tmp/vrobust] [dirs...]"""
import argparse, glob, json, os, queue, shutil, subprocess, sys, tempfile, threading
HERE = os.path.dirname(os.path.dirname(os.path.abspath(__file__)))
REPO = "/repo"


def sh(cmd, **kw):
	return subprocess.run(cmd, shell=True, text=True, capture_output=True, **kw)


def main():
	ap = argparse.ArgumentParser()
	ap.add_argument("dirs", nargs="*")
	ap.add_argument("--seeds", default="1,2,3")
	ap.add_argument("--jobs", type=int, default=4)
	ap.add_argument("--copy", default="/tmp/vrobust")
	a = ap.parse_args()
	seeds = [int(x) for x in a.seeds.split(",")]
	dirs = [os.path.abspath(d) for d in (a.dirs or sorted(glob.glob(os.path.join(HERE, "seeded", "*-m*"))))]
	q = queue.Queue()
	for d in dirs:
		q.put(d)
	lock = threading.Lock()

	def worker(k):
		copy = f"{a.copy}-{k}"
		shutil.rmtree(copy, ignore_errors=True)
		sh(f"rsync -a --exclude .git --exclude replays --exclude seeded {HERE}/ {copy}/")
		wt = tempfile.mkdtemp(prefix=f"serif-robust-{k}-")
		os.rmdir(wt)
		assert sh(f"git -C {REPO} worktree add -q --detach {wt} HEAD").returncode == 0
		try:
			while True:
				try:
					d = q.get_nowait()
				except queue.Empty:
					return
				m = json.load(open(os.path.join(d, "meta.json")))
				if m.get("disposition"):
					continue
				sh(f"git -C {wt} reset -q --hard HEAD")
				if sh(f"git -C {wt} apply --whitespace=nowarn {d}/patch.diff").returncode != 0:
					with lock:
						print(os.path.basename(d), "PATCH DOES NOT APPLY", flush=True)
					continue
				missed = []
				for s in seeds:
					env = dict(os.environ, VERIF_REPO_SRC=f"{wt}/src", VERIF_SEED=str(s))
					c = subprocess.run([os.path.join(copy, "vcheck.py"), "--property", m["property"], "--tier", "quick"], cwd=copy, env=env, capture_output=True, text=True, timeout=3600)
					if c.returncode != 1:
						missed.append((s, c.returncode))
				with lock:
					print(os.path.basename(d), m["property"], "robust" if not missed else f"MISSED-under-seeds {missed}", flush=True)
		finally:
			sh(f"git -C {REPO} worktree remove --force {wt}")
			shutil.rmtree(copy, ignore_errors=True)

	ts = [threading.Thread(target=worker, args=(k,)) for k in range(a.jobs)]
	for t in ts:
		t.start()
	for t in ts:
		t.join()
	sh(f"git -C {REPO} worktree prune")


if __name__ == "__main__":
	main()
